package checks

import (
	"fmt"
	"math/rand"
	"sort"
	"strings"

	"verif/internal/core"
	"verif/internal/eng"
)

// C04 — GROUP BY partitions each window's rows by the grouping key tuple.

func init() { register(&Check{ID: "C04", Run: runC04}) }

type c04Case struct {
	core.CaseRef
	Window string   `json:"window"` // counting | tumbling | session | global
	Param  bool     `json:"parameterised_aggregates,omitempty"`
	N      int      `json:"n"`
	Cols   []string `json:"cols"`
	FnKey  bool     `json:"function_key"` // GROUP BY upper(k1)
	SQL    string   `json:"sql"`
	Rows   []Row    `json:"rows"`
	Shape  string   `json:"key_shape"`
	Types  []string `json:"col_types"`
	Out    []string `json:"output_names"` // name under which each group column is selected (alias or the column itself)
	// KeyForm of the first grouping column: "" | "nested" (GROUP BY d.k1 over rows carrying d:{k1:..}) | "backquoted"
	KeyForm string `json:"first_key_form,omitempty"`
	// FnAbs: GROUP BY abs(k1), `k2` - a numeric function key that cannot be evaluated for NULL rows, followed by a
	// key that has to be resolved as well (back-quoted): 1 and -1 are one group, NULL rows keep their own k2 groups
	FnAbs bool `json:"abs_function_key,omitempty"`
}

func genC04(ref core.CaseRef, r *rand.Rand) *c04Case {
	c := &c04Case{CaseRef: ref}
	c.Window = pick(r, []string{"counting", "counting", "tumbling", "tumbling", "session", "global", "global"})
	ncols := pick(r, []int{0, 1, 1, 2, 2, 3})
	if c.Window == "session" && ncols == 0 {
		ncols = 1
	}
	c.Cols = []string{"k1", "k2", "k3"}[:ncols]
	hostile := r.Intn(4) > 0
	doms := make([][]any, ncols)
	var all []any
	for i := range doms {
		switch r.Intn(6) {
		case 5:
			// 64-bit identifiers beyond 2^53 (neighbours collapse when squeezed through float64)
			c.Types = append(c.Types, "bigint")
			for _, v := range []int64{9007199254740992, 9007199254740993, 9007199254740994, -9007199254740993, 1234567890123456789, 1234567890123456788}[:2+r.Intn(5)] {
				doms[i] = append(doms[i], v)
			}
		case 0:
			c.Types = append(c.Types, "int")
			for _, v := range []int{1, 2, 10, -1, 0}[:2+r.Intn(3)] {
				doms[i] = append(doms[i], v)
			}
		case 1:
			c.Types = append(c.Types, "float")
			for _, v := range []float64{1.5, 2.5, -0.25, 0}[:2+r.Intn(2)] {
				doms[i] = append(doms[i], v)
			}
		default:
			c.Types = append(c.Types, "string")
			src := plainKeys
			if hostile {
				src = keyAlphabet
			}
			for j, k := 0, 2+r.Intn(3); j < k; j++ {
				doms[i] = append(doms[i], pick(r, src))
			}
			if hostile && r.Intn(2) == 0 {
				doms[i] = append(doms[i], nil)
				if r.Intn(2) == 0 {
					doms[i] = append(doms[i], `\N`) // a text that spells a NULL marker, next to NULL
				}
			}
		}
		all = append(all, doms[i]...)
	}
	if hostile && ncols >= 2 && c.Types[0] == "string" && c.Types[1] == "string" && r.Intn(2) == 0 {
		// the classic join-ambiguity pair
		doms[0] = append(doms[0], "a|b", "a")
		doms[1] = append(doms[1], "c", "b|c")
		all = append(all, "a|b", "b|c")
	}
	c.Shape = keyShape(all)
	if ncols >= 2 && ref.Index%9 == 5 {
		c.FnAbs = true
		c.Types[0], c.Types[1] = "int", "string"
		doms[0] = []any{1, -1, 2, -2, nil}
		doms[1] = []any{"AB", "CD", "ef"}
	}
	if !c.FnAbs && ncols >= 1 && c.Types[0] == "string" && !hostile && r.Intn(3) == 0 {
		c.FnKey = true
		doms[0] = []any{"aa", "Aa", "bb", "BB", "c"}
	}
	n := 20 + r.Intn(100)
	c.N = 1 + r.Intn(6)
	ts := int64(10000)
	for i := 1; i <= n; i++ {
		row := Row{"id": i}
		for j, col := range c.Cols {
			v := pick(r, doms[j])
			if v == nil && r.Intn(2) == 0 {
				continue
			}
			row[col] = v
		}
		switch c.Window {
		case "tumbling":
			ts += int64(r.Intn(400))
			row["ts"] = baseTs + ts
		case "session":
			if r.Intn(6) == 0 {
				ts += 3000
			} else {
				ts += int64(r.Intn(300))
			}
			row["ts"] = baseTs + ts
		}
		c.Rows = append(c.Rows, row)
	}
	sel := append([]string{}, c.Cols...)
	gb := append([]string{}, c.Cols...)
	c.Out = append([]string{}, c.Cols...)
	if c.FnAbs {
		sel[0], gb[0] = "abs(k1) AS k1", "abs(k1)"
		sel[1], gb[1] = "`k2` AS g_k2", "`k2`"
		c.Out[1] = "g_k2"
	} else if c.FnKey {
		sel[0] = "upper(k1) AS k1"
		gb[0] = "upper(k1)"
		if r.Intn(3) == 0 {
			// the function's argument is a nested path: the key text then contains a dot
			c.KeyForm = "nested"
			sel[0], gb[0] = "upper(d.k1) AS k1", "upper(d.k1)"
		}
	} else if ncols >= 1 && ref.Index%7 == 4 {
		c.KeyForm = pick(r, []string{"nested", "backquoted"})
		c.Out[0] = "g_k1"
		if c.KeyForm == "nested" {
			sel[0], gb[0] = "d.k1 AS g_k1", "d.k1"
		} else {
			sel[0], gb[0] = "`k1` AS g_k1", "`k1`"
		}
	} else if r.Intn(3) == 0 {
		// some group columns selected under an alias, in any mix with un-aliased ones
		for j := range c.Cols {
			if r.Intn(2) == 0 {
				c.Out[j] = "g_" + c.Cols[j]
				sel[j] = c.Cols[j] + " AS " + c.Out[j]
			}
		}
	}
	sel = append(sel, "count(*) AS c", "collect(id) AS ids")
	if ref.Index%3 == 1 {
		// aggregates that take a parameter keep one state per group as well
		c.Param = true
		sel = append(sel, "nth_value(id, 2) AS n2", "percentile(id, 0) AS p0")
	}
	switch c.Window {
	case "counting":
		gb = append(gb, fmt.Sprintf("CountingWindow(%d)", c.N))
		c.SQL = "SELECT " + strings.Join(sel, ", ") + " FROM stream GROUP BY " + strings.Join(gb, ", ")
	case "tumbling":
		gb = append(gb, "TumblingWindow('1s')")
		c.SQL = "SELECT " + strings.Join(sel, ", ") + " FROM stream GROUP BY " + strings.Join(gb, ", ") + " WITH (TIMESTAMP='ts', TIMEUNIT='ms')"
	case "session":
		gb = append(gb, "SessionWindow('1s')")
		c.SQL = "SELECT " + strings.Join(sel, ", ") + " FROM stream GROUP BY " + strings.Join(gb, ", ") + " WITH (TIMESTAMP='ts', TIMEUNIT='ms')"
	case "global":
		gb = append(gb, fmt.Sprintf("GLOBAL WINDOW TRIGGER WHEN count(*) >= %d", c.N))
		c.SQL = "SELECT " + strings.Join(sel, ", ") + " FROM stream GROUP BY " + strings.Join(gb, ", ")
	}
	return c
}

func runC04(ctx *core.Ctx) {
	ctx.SetRule("case = (window kind in {counting, event-time tumbling, event-time session, global}, 0-3 key columns each of one scalar type, separator-heavy string domain incl. NULL/missing/''/'|'/','/unit-separator/'\\x00NULL' and the ('a|b','c') vs ('a','b|c') pair, optional function key upper(k1), row list) from PRNG(seed,index); " +
		"non-trivial = at least 2 distinct key tuples in some delivered batch's source rows or across batches, and at least 2 deliveries; distinct by (SQL, rows) hash")
	ctx.Assume("typed tuple equality: string '1' ≠ int 1, NULL and missing are the same NULL group, '' ≠ NULL", "one scalar type per key column, as the property's quantifier states")
	n := ctx.N(240, 6000)
	ctx.Cases("c04", n, 2*workers(), func(i int, r *rand.Rand) {
		execC04(ctx, genC04(core.CaseRef{Stream: "c04", Index: i}, r))
	})
	c04DistinctStream(ctx)
	c04LateStream(ctx)
}

func (c *c04Case) keyOfRow(row Row) string {
	if c.FnAbs {
		cp := Row{}
		for k, v := range row {
			cp[k] = v
		}
		if f, ok := toF(row["k1"]); ok && row["k1"] != nil {
			if f < 0 {
				f = -f
			}
			cp["k1"] = f
		}
		return tuple(cp, c.Cols)
	}
	if !c.FnKey {
		return tuple(row, c.Cols)
	}
	cp := Row{}
	for k, v := range row {
		cp[k] = v
	}
	if s, ok := row["k1"].(string); ok {
		cp["k1"] = strings.ToUpper(s)
	}
	return tuple(cp, c.Cols)
}

func execC04(ctx *core.Ctx, c *c04Case) {
	attrs := map[string]string{"window": c.Window, "key_shape": c.Shape, "ncols": fmt.Sprint(len(c.Cols)), "function_key": fmt.Sprint(c.FnKey)}
	viol := func(kind, detail string) {
		ctx.Violate(core.Violation{Kind: kind, Attrs: attrs, Detail: detail + "\n  sql: " + c.SQL, Case: c})
	}
	byID := map[int]Row{}
	groups := map[string][]int{}
	for _, row := range c.Rows {
		id := row["id"].(int)
		byID[id] = row
		k := c.keyOfRow(row)
		groups[k] = append(groups[k], id)
	}
	rows := c.Rows
	expect := -1
	switch c.Window {
	case "counting", "global":
		expect = 0
		for _, ids := range groups {
			expect += len(ids) / c.N
		}
	case "tumbling", "session":
		// sentinel closes everything
		last := rows[len(rows)-1]["ts"].(int64)
		s := Row{"id": -1, "ts": last + 20000}
		for _, col := range c.Cols {
			s[col] = "__sentinel__"
		}
		rows = append(append([]Row{}, rows...), s)
	}
	if c.KeyForm == "nested" {
		// as the caller sends them: the first key column lives inside the object d
		feed := make([]Row, len(rows))
		for i, row := range rows {
			cp := Row{}
			for k, v := range row {
				if k != "k1" {
					cp[k] = v
				}
			}
			if v, ok := row["k1"]; ok {
				cp["d"] = map[string]any{"k1": v}
			}
			feed[i] = cp
		}
		rows = feed
	}
	if c.KeyForm != "" {
		ctx.Count("cases_key_form_"+c.KeyForm, 1)
		attrs["first_key_form"] = c.KeyForm
	}
	res := runWindow(c.SQL, rows, runOpts{Opts: eng.Opts{}, Expect: expect})
	if res.Err != nil {
		viol("groupby.execute_error", res.Err.Error())
		return
	}
	if res.Overloaded {
		ctx.Inconclusive("engine declared overload")
		return
	}
	seenID := map[int]int{}
	resultOf := map[int]string{} // witness id -> the result row that reports it
	batchMulti := false
	for _, d := range res.Dels {
		tuplesInBatch := map[string]bool{}
		batchIDs := map[string][]int{} // source-row grouping of this batch's witnesses
		for _, out := range d.Rows {
			ids, ok := idList(out["ids"])
			if !ok {
				viol("groupby.undecodable_result", core.J(out))
				return
			}
			k := tuple(out, c.Out)
			for j, name := range c.Out {
				if _, has := out[name]; !has && name != c.Cols[j] {
					if _, raw := out[c.Cols[j]]; raw {
						viol("groupby.tuple_not_under_selected_name", fmt.Sprintf("group column %s was selected AS %s but the result row carries it as %s: %s", c.Cols[j], name, c.Cols[j], core.J(out)))
						return
					}
				}
			}
			if tuplesInBatch[k] {
				viol("groupby.equal_values_split", fmt.Sprintf("delivery %d holds two result rows for the key tuple %q: %s", d.Index, k, core.J(d.Rows)))
				return
			}
			tuplesInBatch[k] = true
			if !numEq(out["c"], len(ids)) {
				viol("groupby.count_mismatch", fmt.Sprintf("count(*)=%v but collect(id) has %d ids: %s", out["c"], len(ids), core.J(out)))
				return
			}
			if c.Param && len(ids) > 0 {
				// nth_value(id, 2) is the group's second row, percentile(id, 0) its smallest id
				mn := ids[0]
				for _, id := range ids {
					if id < mn {
						mn = id
					}
				}
				if (len(ids) >= 2 && !numEq(out["n2"], ids[1])) || (len(ids) < 2 && out["n2"] != nil) || !numEq(out["p0"], mn) {
					viol("groupby.row_not_in_own_group", fmt.Sprintf("group %q holds the rows %v, but nth_value(id, 2) = %v and percentile(id, 0) = %v: a parameterised aggregate saw rows of another group (delivery %d: %s)", k, ids, out["n2"], out["p0"], d.Index, core.J(out)))
					return
				}
			}
			for _, id := range ids {
				src, ok := byID[id]
				if !ok {
					viol("groupby.unknown_row", fmt.Sprintf("id %d is no input row", id))
					return
				}
				if sk := c.keyOfRow(src); sk != k {
					viol("groupby.different_values_merged", fmt.Sprintf("row id=%d has key tuple %q but was aggregated in the result row reporting %q (delivery %d: %s)", id, sk, k, d.Index, core.J(out)))
					return
				}
				batchIDs[k] = append(batchIDs[k], id)
				seenID[id]++
				resultOf[id] = fmt.Sprintf("delivery %d: %s", d.Index, core.J(out))
			}
			if c.Window == "counting" || c.Window == "global" {
				if len(ids) != c.N {
					viol("groupby.window_key_collision", fmt.Sprintf("%s window with N=%d delivered a group of %d rows for key %q (delivery %d holds %d result rows): the window's own per-key buffer mixed tuples", c.Window, c.N, len(ids), k, d.Index, len(d.Rows)))
					return
				}
			}
		}
		if len(tuplesInBatch) >= 2 {
			batchMulti = true
		}
		if (c.Window == "counting" || c.Window == "global" || c.Window == "session") && len(d.Rows) != 1 {
			viol("groupby.window_key_collision", fmt.Sprintf("%s window delivered %d result rows in one batch (keys are windowed separately, one expected): %s", c.Window, len(d.Rows), core.J(d.Rows)))
			return
		}
	}
	// every row aggregated in its own group (exactly once where the window semantics are exact)
	switch c.Window {
	case "counting", "global":
		for k, ids := range groups {
			full := (len(ids) / c.N) * c.N
			for i, id := range ids {
				want := 0
				if i < full {
					want = 1
				}
				if seenID[id] != want {
					if !res.Quiescent {
						ctx.Inconclusive("not quiescent")
						return
					}
					viol("groupby.row_not_in_own_group", fmt.Sprintf("row id=%d (key %q, position %d of %d, N=%d) was aggregated %d times, expected %d", id, k, i+1, len(ids), c.N, seenID[id], want))
					return
				}
			}
		}
	default:
		if c.Window == "session" && res.Quiescent {
			// equal values are never split: two rows of one tuple that follow each other within less than the
			// session timeout (1 s; the rows arrive in timestamp order) belong to one session of that tuple
			last := map[string]Row{}
			for _, row := range c.Rows {
				k := c.keyOfRow(row)
				if p, ok := last[k]; ok && row["ts"].(int64)-p["ts"].(int64) < 1000 {
					a, b := p["id"].(int), row["id"].(int)
					if seenID[a] == 1 && seenID[b] == 1 && resultOf[a] != resultOf[b] {
						viol("groupby.equal_values_split", fmt.Sprintf("rows id=%d and id=%d have the same key tuple %q and are %d ms apart (session timeout 1 s) but are reported in two different results:\n  %s\n  %s\n  rows: %s %s",
							a, b, k, row["ts"].(int64)-p["ts"].(int64), resultOf[a], resultOf[b], core.J(p), core.J(row)))
						return
					}
				}
				last[k] = row
			}
		}
		for _, row := range c.Rows {
			id := row["id"].(int)
			if seenID[id] != 1 {
				if !res.Quiescent {
					ctx.Inconclusive("not quiescent")
					return
				}
				viol("groupby.row_not_in_own_group", fmt.Sprintf("row id=%d (key %q) was aggregated %d times in a %s window closed by a sentinel", id, c.keyOfRow(row), seenID[id], c.Window))
				return
			}
		}
	}
	ctx.Count("deliveries_checked", int64(len(res.Dels)))
	ctx.Count("window."+c.Window, 1)
	keys := make([]string, 0, len(groups))
	for k := range groups {
		keys = append(keys, k)
	}
	sort.Strings(keys)
	var sample any
	if c.Index < 3 {
		sample = map[string]any{"sql": c.SQL, "rows": len(c.Rows), "distinct_tuples": len(groups), "deliveries": len(res.Dels), "first_rows": c.Rows[:min(3, len(c.Rows))]}
	}
	ctx.Case(c.SQL+core.J(c.Rows), len(groups) >= 2 && len(res.Dels) >= 2 && (batchMulti || c.Window != "tumbling"), sample)
}
